//! C40 — every path component git refuses under core.protectNTFS / core.protectHFS is refused by
//! `gix_validate::path::component` (E1: bounded-exhaustive components x option combinations).
//!
//! Oracles:
//!  * the git binary: `git -c core.protectNTFS=.. -c core.protectHFS=.. update-index -z --stdin` (batch, see `git_table`) and
//!    `update-index --add --cacheinfo <mode> <oid> <path>` (single paths),
//!  * a line-by-line transcription of git 2.39's `verify_path` / `verify_dotfile` / `is_ntfs_dotgit` /
//!    `is_ntfs_dot_generic` / `is_hfs_dot_generic` / `pick_one_utf8_char` (module `gitc`), which is itself compared with
//!    the git binary on every case of the `git` sub-check and then used alone on a much larger space,
//!  * a transcription of `is_valid_win32_path` (compat/mingw.c) for what git refuses on Windows only.
use bstr::ByteSlice;
use gix_validate::path::component::{Mode, Options};
use serde::{Deserialize, Serialize};
use std::collections::HashSet;
use std::sync::atomic::{AtomicU64, Ordering};
use vkit::{bad, enumerate, ok, ok_trivial, Run, Verdict, B};

/// Transcription of the relevant parts of git (read-cache.c, path.c, utf8.c, compat/mingw.c). Strings are C strings:
/// `at()` yields NUL past the end.
pub mod gitc {
    fn at(p: &[u8], i: usize) -> u8 {
        p.get(i).copied().unwrap_or(0)
    }
    fn from(p: &[u8], i: usize) -> &[u8] {
        &p[i.min(p.len())..]
    }
    fn lower(c: u8) -> u8 {
        c.to_ascii_lowercase()
    }
    fn is_xplatform_dir_sep(c: u8) -> bool {
        c == b'/' || c == b'\\'
    }

    /// utf8.c: pick_one_utf8_char(&s, NULL). Returns (char, bytes consumed) or None for "invalid" (*start = NULL).
    fn pick_one_utf8_char(s: &[u8]) -> Option<(u32, usize)> {
        let b = |i: usize| at(s, i) as u32;
        if b(0) < 0x80 {
            Some((b(0), 1))
        } else if b(0) & 0xe0 == 0xc0 {
            if b(1) & 0xc0 != 0x80 || b(0) & 0xfe == 0xc0 {
                return None;
            }
            Some((((b(0) & 0x1f) << 6) | (b(1) & 0x3f), 2))
        } else if b(0) & 0xf0 == 0xe0 {
            if b(1) & 0xc0 != 0x80
                || b(2) & 0xc0 != 0x80
                || (b(0) == 0xe0 && b(1) & 0xe0 == 0x80)
                || (b(0) == 0xed && b(1) & 0xe0 == 0xa0)
                || (b(0) == 0xef && b(1) == 0xbf && b(2) & 0xfe == 0xbe)
            {
                return None;
            }
            Some((((b(0) & 0x0f) << 12) | ((b(1) & 0x3f) << 6) | (b(2) & 0x3f), 3))
        } else if b(0) & 0xf8 == 0xf0 {
            if b(1) & 0xc0 != 0x80
                || b(2) & 0xc0 != 0x80
                || b(3) & 0xc0 != 0x80
                || (b(0) == 0xf0 && b(1) & 0xf0 == 0x80)
                || (b(0) == 0xf4 && b(1) > 0x8f)
                || b(0) > 0xf4
            {
                return None;
            }
            Some((((b(0) & 0x07) << 18) | ((b(1) & 0x3f) << 12) | ((b(2) & 0x3f) << 6) | (b(3) & 0x3f), 4))
        } else {
            None
        }
    }

    /// utf8.c: next_hfs_char — skips ignorable code points; 0 for malformed UTF-8 (and for NUL).
    fn next_hfs_char(path: &[u8], pos: &mut usize) -> u32 {
        loop {
            let Some((out, incr)) = pick_one_utf8_char(from(path, *pos)) else {
                return 0;
            };
            *pos += incr;
            match out {
                0x200c | 0x200d | 0x200e | 0x200f | 0x202a | 0x202b | 0x202c | 0x202d | 0x202e | 0x206a | 0x206b
                | 0x206c | 0x206d | 0x206e | 0x206f | 0xfeff => continue,
                _ => return out,
            }
        }
    }

    fn is_hfs_dot_generic(path: &[u8], needle: &[u8]) -> bool {
        let mut pos = 0;
        let c = next_hfs_char(path, &mut pos);
        if c != b'.' as u32 {
            return false;
        }
        for n in needle {
            let c = next_hfs_char(path, &mut pos);
            if c > 127 {
                return false;
            }
            if lower(c as u8) != *n {
                return false;
            }
        }
        let c = next_hfs_char(path, &mut pos);
        if c != 0 && c != b'/' as u32 {
            return false;
        }
        true
    }
    pub fn is_hfs_dotgit(path: &[u8]) -> bool {
        is_hfs_dot_generic(path, b"git")
    }
    pub fn is_hfs_dotgitmodules(path: &[u8]) -> bool {
        is_hfs_dot_generic(path, b"gitmodules")
    }

    pub fn is_ntfs_dotgit(name: &[u8]) -> bool {
        let mut i = 0;
        let mut next = || {
            let c = at(name, i);
            i += 1;
            c
        };
        let c = next();
        if c == b'.' {
            if lower(next()) != b'g' || lower(next()) != b'i' || lower(next()) != b't' {
                return false;
            }
        } else if c == b'g' || c == b'G' {
            if lower(next()) != b'i' || lower(next()) != b't' || next() != b'~' || next() != b'1' {
                return false;
            }
        } else {
            return false;
        }
        loop {
            let c = next();
            if c == 0 || is_xplatform_dir_sep(c) || c == b':' {
                return true;
            }
            if c != b'.' && c != b' ' {
                return false;
            }
        }
    }

    fn strncasecmp_eq(name: &[u8], off: usize, needle: &[u8], n: usize) -> bool {
        (0..n).all(|k| {
            let a = at(name, off + k);
            a != 0 && lower(a) == lower(needle[k])
        })
    }

    fn is_ntfs_dot_generic(name: &[u8], dotgit_name: &[u8], shortname_prefix: &[u8]) -> bool {
        let len = dotgit_name.len();
        let only_spaces_and_periods = |mut i: usize| loop {
            let c = at(name, i);
            i += 1;
            if c == 0 || c == b':' {
                return true;
            }
            if c != b' ' && c != b'.' {
                return false;
            }
        };
        if at(name, 0) == b'.' && strncasecmp_eq(name, 1, dotgit_name, len) {
            return only_spaces_and_periods(len + 1);
        }
        if strncasecmp_eq(name, 0, dotgit_name, 6) && at(name, 6) == b'~' && at(name, 7) >= b'1' && at(name, 7) <= b'4' {
            return only_spaces_and_periods(8);
        }
        let mut i = 0usize;
        let mut saw_tilde = false;
        while i < 8 {
            if at(name, i) == 0 {
                return false;
            } else if saw_tilde {
                if at(name, i) < b'0' || at(name, i) > b'9' {
                    return false;
                }
            } else if at(name, i) == b'~' {
                i += 1;
                if at(name, i) < b'1' || at(name, i) > b'9' {
                    return false;
                }
                saw_tilde = true;
            } else if i >= 6 {
                return false;
            } else if at(name, i) & 0x80 != 0 {
                return false;
            } else if lower(at(name, i)) != shortname_prefix[i] {
                return false;
            }
            i += 1;
        }
        only_spaces_and_periods(i)
    }
    pub fn is_ntfs_dotgitmodules(name: &[u8]) -> bool {
        is_ntfs_dot_generic(name, b"gitmodules", b"gi7eba")
    }

    /// read-cache.c: verify_dotfile (the leading '.' was consumed). `true` = fine.
    fn verify_dotfile(rest: &[u8], symlink: bool) -> bool {
        let r = |i: usize| at(rest, i);
        if r(0) == 0 || r(0) == b'/' {
            return false;
        }
        match r(0) {
            b'g' | b'G' => {
                if r(1) != b'i' && r(1) != b'I' {
                    return true;
                }
                if r(2) != b't' && r(2) != b'T' {
                    return true;
                }
                if r(3) == 0 || r(3) == b'/' {
                    return false;
                }
                if symlink {
                    let rest = from(rest, 3);
                    if strncasecmp_eq(rest, 0, b"modules", 7) && (at(rest, 7) == 0 || at(rest, 7) == b'/') {
                        return false;
                    }
                }
            }
            b'.' => {
                if r(1) == 0 || r(1) == b'/' {
                    return false;
                }
            }
            _ => {}
        }
        true
    }

    /// read-cache.c: verify_path on a non-Windows build (is_dir_sep = '/', no drive prefix, is_valid_path = 1), for a
    /// non-directory mode. `true` = git accepts the path.
    pub fn verify_path(path: &[u8], symlink: bool, protect_ntfs: bool, protect_hfs: bool) -> bool {
        let mut p = 0usize;
        let mut c = 0u8;
        let mut inside = true;
        loop {
            if !inside && c == 0 {
                return true;
            }
            if inside || c == b'/' {
                inside = false;
                let rest = from(path, p);
                if protect_hfs {
                    if is_hfs_dotgit(rest) {
                        return false;
                    }
                    if symlink && is_hfs_dotgitmodules(rest) {
                        return false;
                    }
                }
                if protect_ntfs {
                    if is_ntfs_dotgit(rest) {
                        return false;
                    }
                    if symlink && is_ntfs_dotgitmodules(rest) {
                        return false;
                    }
                }
                c = at(path, p);
                p += 1;
                if (c == b'.' && !verify_dotfile(from(path, p), symlink)) || c == b'/' {
                    return false;
                }
                if c == 0 {
                    return false; // S_ISDIR(mode) only
                }
            } else if c == b'\\' && protect_ntfs {
                let rest = from(path, p);
                if is_ntfs_dotgit(rest) {
                    return false;
                }
                if symlink && is_ntfs_dotgitmodules(rest) {
                    return false;
                }
            }
            c = at(path, p);
            p += 1;
        }
    }

    /// compat/mingw.c: is_valid_win32_path(path, allow_literal_nul = 0) with protect_ntfs on, without a drive prefix.
    pub fn is_valid_win32_path(path: &[u8]) -> bool {
        let mut p = 0usize; // `path` pointer
        let mut preceding_space_or_period = false;
        let mut i = 0usize;
        let mut periods = 0usize;
        let mut segment_start = true;
        loop {
            if !segment_start {
                let c = at(path, p);
                p += 1;
                match c {
                    0 | b'/' | b'\\' => {
                        if preceding_space_or_period && (i != periods || periods > 2) {
                            return false;
                        }
                        if c == 0 {
                            return true;
                        }
                        i = 0;
                        periods = 0;
                        preceding_space_or_period = false;
                        segment_start = true;
                        continue;
                    }
                    b'.' => {
                        periods += 1;
                        preceding_space_or_period = true;
                        i += 1;
                        continue;
                    }
                    b' ' => {
                        preceding_space_or_period = true;
                        i += 1;
                        continue;
                    }
                    b':' | b'<' | b'>' | b'"' | b'|' | b'?' | b'*' => return false,
                    _ => {
                        if c > 0 && c < 0x20 {
                            return false;
                        }
                    }
                }
                preceding_space_or_period = false;
                i += 1;
                continue;
            }
            // segment_start:
            segment_start = false;
            let q = |k: usize| at(path, p + k);
            let reserved: bool;
            match q(0) {
                b'a' | b'A' => {
                    reserved = lower(q(1)) == b'u' && lower(q(2)) == b'x';
                    i = if reserved { 2 } else if lower(q(1)) != b'u' { 1 } else { 2 };
                }
                b'c' | b'C' => {
                    if lower(q(1)) != b'o' {
                        reserved = false;
                        i = 1;
                    } else {
                        let c = q(2);
                        i = 2;
                        if lower(c) == b'm' {
                            i = 3;
                            reserved = q(3) >= b'1' && q(3) <= b'9';
                        } else if lower(c) == b'n' {
                            reserved = true;
                            if lower(q(3)) == b'i' && lower(q(4)) == b'n' && q(5) == b'$' {
                                i += 3;
                            } else if lower(q(3)) == b'o' && lower(q(4)) == b'u' && lower(q(5)) == b't' && q(6) == b'$' {
                                i += 4;
                            }
                        } else {
                            reserved = false;
                        }
                    }
                }
                b'l' | b'L' => {
                    if lower(q(1)) != b'p' {
                        reserved = false;
                        i = 1;
                    } else if lower(q(2)) != b't' {
                        reserved = false;
                        i = 2;
                    } else {
                        i = 3;
                        reserved = q(3).is_ascii_digit();
                    }
                }
                b'n' | b'N' => {
                    if lower(q(1)) != b'u' {
                        reserved = false;
                        i = 1;
                    } else {
                        i = 2;
                        reserved = lower(q(2)) == b'l';
                    }
                }
                b'p' | b'P' => {
                    if lower(q(1)) != b'r' {
                        reserved = false;
                        i = 1;
                    } else {
                        i = 2;
                        reserved = lower(q(2)) == b'n';
                    }
                }
                _ => continue,
            }
            if reserved {
                i += 1;
                if q(i) == b' ' {
                    preceding_space_or_period = true;
                    loop {
                        i += 1;
                        if q(i) != b' ' {
                            break;
                        }
                    }
                }
                let c = q(i);
                if !(c != 0 && c != b'.' && c != b':' && !is_xplatform_dir_sep(c)) {
                    return false;
                }
            }
            // not_a_reserved_name: path += i; continue;
            // The bytes skipped are letters/digits/'$'/' ' of a device-name prefix; `i` keeps counting them as segment length.
            p += i;
        }
    }
}

#[derive(Serialize, Deserialize, Hash, Clone, Debug, PartialEq, Eq)]
struct Case {
    comp: B,
    /// 0 = `<comp>`, 1 = `d/<comp>`, 2 = `<comp>/f` (regular-file mode only)
    pos: u8,
    symlink: bool,
    ntfs: bool,
    hfs: bool,
}
impl Case {
    fn path(&self) -> Vec<u8> {
        match self.pos {
            0 => self.comp.to_vec(),
            1 => [b"d/", &self.comp[..]].concat(),
            _ => [&self.comp[..], b"/f"].concat(),
        }
    }
}

/// What gitoxide says for the path split at '/', the mode passed for the leaf only (as gix-index / the tree editor do).
fn gix_refuses(c: &Case, protect_windows: bool) -> Option<String> {
    let opts = Options { protect_windows, protect_hfs: c.hfs, protect_ntfs: c.ntfs };
    let path = c.path();
    let comps: Vec<&[u8]> = path.split(|b| *b == b'/').collect();
    for (i, comp) in comps.iter().enumerate() {
        let mode = (i + 1 == comps.len() && c.symlink).then_some(Mode::Symlink);
        if let Err(e) = gix_validate::path::component(comp.as_bstr(), mode, opts) {
            return Some(format!("{e:?}"));
        }
    }
    None
}

const IGNORABLE: [u32; 16] = [
    0x200c, 0x200d, 0x200e, 0x200f, 0x202a, 0x202b, 0x202c, 0x202d, 0x202e, 0x206a, 0x206b, 0x206c, 0x206d, 0x206e, 0x206f, 0xfeff,
];
fn utf8(cp: u32) -> Vec<u8> {
    char::from_u32(cp).unwrap().to_string().into_bytes()
}

fn case_masks(word: &[u8], masks: impl Iterator<Item = u32>) -> Vec<Vec<u8>> {
    let letters: Vec<usize> = (0..word.len()).filter(|i| word[*i].is_ascii_alphabetic()).collect();
    let mut out = Vec::new();
    for m in masks {
        let mut w = word.to_ascii_lowercase();
        for (k, &i) in letters.iter().enumerate() {
            if m >> k & 1 == 1 {
                w[i] = w[i].to_ascii_uppercase();
            }
        }
        out.push(w);
    }
    out
}

/// every way to insert `n` (1 or 2) elements of `ins` into `word` (all positions incl. both ends)
fn insertions(word: &[u8], ins: &[Vec<u8>], n: usize, out: &mut Vec<Vec<u8>>) {
    for p in 0..=word.len() {
        for a in ins {
            let mut w = word[..p].to_vec();
            w.extend_from_slice(a);
            w.extend_from_slice(&word[p..]);
            if n == 1 {
                out.push(w);
            } else {
                // second insertion at or after the first (positions in the new word from p + a.len())
                for p2 in (p + a.len())..=w.len() {
                    for b in ins {
                        let mut w2 = w[..p2].to_vec();
                        w2.extend_from_slice(b);
                        w2.extend_from_slice(&w[p2..]);
                        out.push(w2);
                    }
                }
            }
        }
    }
}

fn is_modules_family(c: &[u8]) -> bool {
    let l = c.to_ascii_lowercase();
    l.find(b"mod").is_some() || l.find(b"gi7").is_some() || l.find(b"~").is_some() && l.len() >= 8
}

/// components asked of the git binary
fn git_components(quick: bool) -> Vec<Vec<u8>> {
    let mut stems: Vec<Vec<u8>> = Vec::new();
    stems.extend(case_masks(b".git", 0..8));
    stems.extend(case_masks(b"git~1", 0..8));
    let n_mod = 1u32 << 10;
    // .gitmodules: all-lower, all-upper, every single-letter flip (quick) / additionally every two-letter flip (thorough)
    let mut masks: Vec<u32> = vec![0, n_mod - 1];
    for a in 0..10 {
        masks.push(1 << a);
        if !quick {
            for b in a + 1..10 {
                masks.push(1 << a | 1 << b);
            }
        }
    }
    stems.extend(case_masks(b".gitmodules", masks.iter().copied()));
    stems.extend(case_masks(b"gitmod~1", [0u32, 63, 1, 32].into_iter()));
    stems.extend(case_masks(b"gi7eba~1", [0u32, 31, 1, 16].into_iter()));
    for s in [
        ".", "..", "...", ".g", ".gi", ".gitx", ".git~1", "git", "git~", "git~2", "git~10", "gi~1", "gitu~1", ".gitmodule", ".gitmodulesx",
        ".gitattributes", ".gitignore", "gitatt~1", "gitmod~0", "gitmod~2", "gitmod~4", "gitmod~5", "gitmod~9", "gitmo~1", "gitmodu~1",
        "gi7eba~0", "gi7eba~9", "gi7eb~10", "gi7eb~19", "gi7e~100", "gi7~1000", "gi~10000", "g~100000", "~1000000", "~0000000", "gi7eba~a",
        "gi7ebb~1", "gi7eba1", "gi7ebaa~1", "gi7eba~", "gi7eb~1", "gi7eb~1x", "gi7d29~1", "GI7EB~10", "gI7e~999", "a", "con", "aux.c", "a~1",
    ] {
        stems.push(s.as_bytes().to_vec());
    }
    let suffix_tokens: [&[u8]; 7] = [b" ", b".", b":", b"x", b"\\", b":stream", b"::$INDEX_ALLOCATION"];
    let mut suffixes = Vec::new();
    enumerate::strings(&suffix_tokens, 0, if quick { 2 } else { 3 }, |s| suffixes.push(s.to_vec()));
    let mut out = Vec::new();
    for st in &stems {
        for su in &suffixes {
            out.push([&st[..], &su[..]].concat());
        }
    }
    // backslash-led variants (git checks after every backslash under protectNTFS)
    for st in [".git", "git~1", ".gitmodules", "gitmod~1", "gi7eba~1", ".GIT ", ".gitx"] {
        for pre in ["a\\", "\\", "a\\b\\", ".git\\", "a\\\\"] {
            out.push(format!("{pre}{st}").into_bytes());
            out.push(format!("{pre}{st}\\x").into_bytes());
        }
    }
    // HFS: ignorable code points, near misses, malformed UTF-8 inserted into the dot names
    let ign: Vec<Vec<u8>> = IGNORABLE.iter().map(|c| utf8(*c)).collect();
    let near: Vec<Vec<u8>> = vec![
        utf8(0x200b),
        utf8(0x2010),
        utf8(0x2029),
        utf8(0x202f),
        utf8(0x2069),
        utf8(0x2070),
        utf8(0xfefe),
        utf8(0xfffe),
        utf8(0xffff),
        utf8(0xe9),
        utf8(0x212a), // KELVIN SIGN (case-folds to k)
        utf8(0x10000),
        b"\xe2\x80".to_vec(),     // truncated 3-byte sequence
        b"\xe2".to_vec(),         // lone lead byte
        b"\x8c".to_vec(),         // lone continuation byte
        b"\xff".to_vec(),         // never valid
        b"\xc0\xae".to_vec(),     // overlong '.'
        b"\xe0\x80\xae".to_vec(), // overlong '.'
        b"\xed\xa0\x80".to_vec(), // surrogate
        b"\xf4\x90\x80\x80".to_vec(),
    ];
    for base in [&b".git"[..], b".GIT", b".gIt", b".gitmodules", b".GITMODULES", b".gitx", b".gi", b"git~1", b".gitmodule"] {
        insertions(base, &ign, 1, &mut out);
        insertions(base, &near, 1, &mut out);
    }
    let ign2: Vec<Vec<u8>> = if quick { vec![utf8(0x200c), utf8(0xfeff), b"\xff".to_vec()] } else { ign.iter().cloned().chain([b"\xff".to_vec(), utf8(0x200b)]).collect() };
    insertions(b".git", &ign2, 2, &mut out);
    if !quick {
        insertions(b".gitmodules", &[utf8(0x200c), utf8(0xfeff), utf8(0x206f), b"\xff".to_vec()], 2, &mut out);
    } else {
        insertions(b".gitmodules", &[utf8(0x200d)], 2, &mut out);
    }
    // HFS x NTFS interplay: ignorable code points combined with NTFS suffixes
    for base in [".git", ".gitmodules"] {
        for cp in [0x200cu32, 0xfeff] {
            for su in [" ", ".", ":", ":x", " .", "x"] {
                let mut w = base.as_bytes().to_vec();
                w.extend(utf8(cp));
                w.extend_from_slice(su.as_bytes());
                out.push(w.clone());
                let mut w2 = base.as_bytes().to_vec();
                w2.extend_from_slice(su.as_bytes());
                w2.extend(utf8(cp));
                out.push(w2);
            }
        }
    }
    let mut seen = HashSet::new();
    out.retain(|c| !c.is_empty() && !c.contains(&0) && !c.contains(&b'/') && seen.insert(c.clone()));
    out
}

fn emit_configs(comp: &[u8], positions: &[u8], emit: &mut dyn FnMut(Case)) {
    for &pos in positions {
        for symlink in [false, true] {
            // the symlink mode matters to git only for the .gitmodules family; for other stems keep one control
            if symlink && (pos == 2 || !(is_modules_family(comp) || comp == b".git" || comp == b"a")) {
                continue;
            }
            for ntfs in [false, true] {
                for hfs in [false, true] {
                    emit(Case { comp: B(comp.to_vec()), pos, symlink, ntfs, hfs });
                }
            }
        }
    }
}

fn judge(c: &Case, git_refuses: bool) -> Verdict {
    let has_backslash = c.comp.contains(&b'\\');
    let mut class = String::new();
    for pw in [false, true] {
        // documented deviation: without protect_windows gitoxide treats '\' as an ordinary byte (gix-validate's own tests demand
        // `.git\hooks\pre-commit` to be valid with protect_ntfs on Unix) — only asserted where gitoxide claims to protect.
        if has_backslash && !pw {
            continue;
        }
        let gix = gix_refuses(c, pw);
        match (git_refuses, &gix) {
            (true, None) => {
                let class = if has_relative_component(&c.path()) { "accepted-relative" } else { "accepted" };
                return bad(
                    class,
                    format!(
                        "git refuses {:?} (symlink={}, protectNTFS={}, protectHFS={}) but gix_validate::path::component accepts every component with protect_windows={pw}",
                        c.path().as_bstr(),
                        c.symlink,
                        c.ntfs,
                        c.hfs
                    ),
                )
            }
            (true, Some(e)) => class = format!("both-refuse:{e}"),
            (false, Some(e)) if class.is_empty() => class = format!("gix-stricter:{e}"),
            (false, None) if class.is_empty() => class = "both-accept".into(),
            _ => {}
        }
    }
    if class.is_empty() {
        class = if git_refuses { "backslash-unprotected-git-refuses".into() } else { "backslash-unprotected".into() };
        return ok_trivial(class);
    }
    if git_refuses {
        ok(class)
    } else {
        ok_trivial(class)
    }
}

/// Ask git about many paths with few processes. `update-index -z --stdin` calls `verify_path(path, st_mode)` for every path
/// and prints `Ignoring path <path>` for the refused ones, continuing with the next:
///  * file mode: `--force-remove` (mode 0, nothing is looked up in the work tree; accepted paths are removed from an empty index),
///  * symlink mode: `--add` with a work tree in which every asked path exists as a symbolic link (lstat gives S_IFLNK).
/// Paths with `.`/`..` components are normalised by update-index before verify_path sees them; those are asked one at a time
/// through `--cacheinfo`.
struct GitTable {
    /// refused[symlink][ntfs][hfs]
    refused: [[[HashSet<Vec<u8>>; 2]; 2]; 2],
    processes: u64,
}

fn has_relative_component(path: &[u8]) -> bool {
    path.split(|b| *b == b'/').any(|c| c == b"." || c == b".." || c.is_empty())
}

fn git_single(repo: &std::path::Path, n: u64, path: &[u8], symlink: bool, ntfs: bool, hfs: bool) -> bool {
    use std::os::unix::ffi::OsStrExt;
    let idx = repo.join(format!("idx.{n}"));
    let mut cmd = vkit::git::cmd(repo);
    cmd.env("GIT_INDEX_FILE", &idx)
        .arg("-c")
        .arg(format!("core.protectNTFS={ntfs}"))
        .arg("-c")
        .arg(format!("core.protectHFS={hfs}"))
        .args(["update-index", "--add", "--cacheinfo", if symlink { "120000" } else { "100644" }, "e69de29bb2d1d6434b8b29ae775ad8c2e48c5391"])
        .arg(std::ffi::OsStr::from_bytes(path));
    let out = vkit::git::run_cmd(cmd, None);
    let _ = std::fs::remove_file(&idx);
    if out.ok {
        false
    } else if out.err_text().contains("Invalid path") {
        true
    } else {
        vkit::machinery!("git update-index --cacheinfo failed unexpectedly for {:?}: {}", path.as_bstr(), out.err_text());
    }
}

fn git_table(base: &std::path::Path, file_paths: &[Vec<u8>], link_paths: &[Vec<u8>]) -> GitTable {
    use std::os::unix::ffi::OsStrExt;
    let mut table = GitTable { refused: Default::default(), processes: 0 };
    // work tree with symlinks
    let wt = base.join("wt");
    std::fs::create_dir_all(&wt).unwrap_or_else(|e| vkit::machinery!("mkdir: {e}"));
    let mut made_dirs = HashSet::new();
    for p in link_paths.iter().filter(|p| !has_relative_component(p)) {
        let full = wt.join(std::ffi::OsStr::from_bytes(p));
        if let Some(parent) = full.parent() {
            if made_dirs.insert(parent.to_owned()) {
                std::fs::create_dir_all(parent).unwrap_or_else(|e| vkit::machinery!("mkdir {parent:?}: {e}"));
            }
        }
        std::os::unix::fs::symlink("t", &full).unwrap_or_else(|e| vkit::machinery!("symlink {full:?}: {e}"));
    }
    let batch = |symlink: bool, ntfs: bool, hfs: bool| -> (HashSet<Vec<u8>>, u64) {
        let paths = if symlink { link_paths } else { file_paths };
        let mut refused = HashSet::new();
        let mut procs = 0;
        let repo = base.join(format!("repo.{}{}{}", symlink as u8, ntfs as u8, hfs as u8));
        vkit::git::init(&repo);
        let mut stdin = Vec::new();
        let mut singles = Vec::new();
        for p in paths {
            if has_relative_component(p) {
                singles.push(p);
            } else {
                stdin.extend_from_slice(p);
                stdin.push(0);
            }
        }
        if !stdin.is_empty() {
            let mut cmd = vkit::git::cmd(if symlink { &wt } else { &repo });
            cmd.env("GIT_DIR", repo.join(".git"));
            if symlink {
                cmd.env("GIT_WORK_TREE", &wt);
            }
            cmd.arg("-c").arg(format!("core.protectNTFS={ntfs}")).arg("-c").arg(format!("core.protectHFS={hfs}")).arg("update-index");
            cmd.arg(if symlink { "--add" } else { "--force-remove" }).args(["-z", "--stdin"]);
            let out = vkit::git::run_cmd(cmd, Some(&stdin));
            procs += 1;
            if !out.ok {
                vkit::machinery!("git update-index --stdin batch failed (symlink={symlink}): {}", String::from_utf8_lossy(&out.stderr[out.stderr.len().saturating_sub(400)..]));
            }
            for line in out.stderr.split(|b| *b == b'\n') {
                if let Some(p) = line.strip_prefix(b"Ignoring path ") {
                    refused.insert(p.to_vec());
                } else if !line.is_empty() {
                    vkit::machinery!("unexpected stderr line from git update-index: {:?}", line.as_bstr());
                }
            }
        }
        for (n, p) in singles.into_iter().enumerate() {
            procs += 1;
            if git_single(&repo, n as u64, p, symlink, ntfs, hfs) {
                refused.insert(p.clone());
            }
        }
        (refused, procs)
    };
    let results: Vec<((bool, bool, bool), (HashSet<Vec<u8>>, u64))> = std::thread::scope(|s| {
        let mut hs = Vec::new();
        for symlink in [false, true] {
            for ntfs in [false, true] {
                for hfs in [false, true] {
                    let batch = &batch;
                    hs.push((
                        (symlink, ntfs, hfs),
                        s.spawn(move || vkit::catch(|| batch(symlink, ntfs, hfs))),
                    ));
                }
            }
        }
        hs.into_iter()
            .map(|(k, h)| match h.join() {
                Ok(Ok(v)) => (k, v),
                Ok(Err(m)) => vkit::machinery!("git batch panicked: {m}"),
                Err(p) => std::panic::resume_unwind(p),
            })
            .collect()
    });
    for ((symlink, ntfs, hfs), (set, procs)) in results {
        table.refused[symlink as usize][ntfs as usize][hfs as usize] = set;
        table.processes += procs;
    }
    table
}

fn with_positions(comp: &[u8], positions: &[u8], out: &mut Vec<(Vec<u8>, u8)>) {
    for &pos in positions {
        out.push((comp.to_vec(), pos));
    }
}

pub fn run(run: &'static Run) {
    run.rule(
        "components = stems {.git, git~1 (all 8 case masks), .gitmodules (all-lower/upper, 1- and (thorough) 2-letter case flips), gitmod~N, gi7eba~N, \
         fall-back 8.3 names gi7eb~10 .. ~1000000, near misses .gi/.gitx/git~2/gitmod~5/gi7ebb~1/.gitattributes/./../...} x suffix strings (<=2 quick / <=3 thorough) over \
         {' ', '.', ':', 'x', '\\', ':stream', '::$INDEX_ALLOCATION'}; backslash-led variants; every one of the 16 HFS-ignorable code points, 12 near-miss code points \
         and 8 malformed UTF-8 sequences inserted at every position of .git/.GIT/.gitmodules/... (1 insertion; 2 insertions for .git and .gitmodules); \
         plus ALL strings of <=3 (quick) / <=4 (thorough) tokens over a 17-token alphabet {., .git, .GIT, git, modules, MODULES, gitmod, gi7eba, ~, 1, 5, 0, ' ', ':', x, U+200C, 0xFF}; \
         x position {leaf, d/leaf, as directory (short components)} x mode {file, symlink (components of the .gitmodules family + controls)} x protectNTFS x protectHFS x protect_windows, \
         every case answered by the git binary; \
         sub-check model: token strings one longer and all 1024 case masks of .gitmodules, judged by the transcription alone; \
         sub-check windows: device names x extensions/spaces/streams judged by the transcription of is_valid_win32_path; \
         non-trivial = git (or the transcription) refuses the path, i.e. the implication's premise holds",
    );
    run.assume("git 2.39.5 is the oracle for what git refuses: `update-index -z --stdin` (`Ignoring path` = verify_path said no; --force-remove for file mode, --add over real symlinks for symlink mode) and `update-index --add --cacheinfo` for paths with ./.. components and for a cross-check sample; the transcription in c40::gitc is compared with git on every case of sub-check `git` (a mismatch is a machinery error) and trusted alone only in sub-check `model`");
    run.assume("components containing '\\' are only asserted with protect_windows=true: gix-validate documents (tests `starts_with_dot_git_with_backslashes_on_linux`, `backslashes_on_unix`) that without it a backslash is an ordinary byte, while git on Linux still inspects what follows a backslash under protectNTFS");
    run.assume("the symlink mode is passed for the leaf component only (a symlink `.gitmodules/f` cannot exist), so position `as directory` uses file mode");
    run.assume("sub-check `windows`: git's Windows-only is_valid_win32_path is transcribed from compat/mingw.c and cannot be cross-checked against a Windows git here");
    run.budget_secs(run.pick(36.0, 560.0));
    let quick = run.quick();

    let tokens: Vec<Vec<u8>> = vec![
        b".".to_vec(),
        b".git".to_vec(),
        b".GIT".to_vec(),
        b"git".to_vec(),
        b"modules".to_vec(),
        b"MODULES".to_vec(),
        b"gitmod".to_vec(),
        b"gi7eba".to_vec(),
        b"~".to_vec(),
        b"1".to_vec(),
        b"5".to_vec(),
        b"0".to_vec(),
        b" ".to_vec(),
        b":".to_vec(),
        b"x".to_vec(),
        utf8(0x200c),
        b"\xff".to_vec(),
    ];
    let toks: Vec<&[u8]> = tokens.iter().map(|t| &t[..]).collect();
    let git_token_len = if quick { 3 } else { 4 };

    // ---------------- git binary ----------------
    // (component, position) pairs; the config axes are added by emit_configs
    let mut asked: Vec<(Vec<u8>, u8)> = Vec::new();
    let replay_case = run.replay_case::<Case>("git");
    if let Some(c) = &replay_case {
        asked.push((c.comp.to_vec(), c.pos));
    } else if !run.is_replay() {
        let mut seen = HashSet::new();
        for comp in git_components(quick) {
            seen.insert(comp.clone());
            // all three positions for short components, leaf only for the long tail
            let short = comp.len() <= 6 || (comp.len() <= 13 && comp.to_ascii_lowercase().starts_with(b".gitmodules"));
            with_positions(&comp, if short { &[0, 1, 2] } else { &[0] }, &mut asked);
        }
        enumerate::strings(&toks, 1, git_token_len, |s| {
            if seen.insert(s.to_vec()) {
                asked.push((s.to_vec(), 0));
            }
        });
    }
    let mut cases: Vec<Case> = Vec::new();
    if let Some(c) = &replay_case {
        cases.push(c.clone());
    } else {
        for (comp, pos) in &asked {
            emit_configs(comp, &[*pos], &mut |c| cases.push(c));
        }
    }
    let mut file_paths = Vec::new();
    let mut link_paths = Vec::new();
    {
        let (mut sf, mut sl) = (HashSet::new(), HashSet::new());
        for c in &cases {
            let p = c.path();
            if c.symlink {
                if sl.insert(p.clone()) {
                    link_paths.push(p);
                }
            } else if sf.insert(p.clone()) {
                file_paths.push(p);
            }
        }
    }
    drop(asked);
    let base = vkit::scratch::Dir::new("c40git");
    let t0 = std::time::Instant::now();
    let table = git_table(base.path(), &file_paths, &link_paths);
    run.cov("git_table_secs", t0.elapsed().as_secs_f64());
    run.cov("git_paths_file_mode", file_paths.len());
    run.cov("git_paths_symlink_mode", link_paths.len());
    run.cov("git_processes", table.processes);
    let single_repo = base.join("single");
    vkit::git::init(&single_repo);
    let counter = AtomicU64::new(0);
    let git_refused = AtomicU64::new(0);
    let hfs_only = AtomicU64::new(0);
    let ntfs_only = AtomicU64::new(0);
    let cross_checked = AtomicU64::new(0);
    run.sub(
        "git",
        |emit| {
            for c in cases {
                emit(c);
            }
        },
        |c: &Case| -> Verdict {
            let path = c.path();
            let refuses = table.refused[c.symlink as usize][c.ntfs as usize][c.hfs as usize].contains(&path);
            // cross-check the batch oracle with the --cacheinfo oracle on a deterministic sample (every case whose hash is 0 mod 2048)
            if vkit::hash_of(c) % 2048 == 0 && !has_relative_component(&path) {
                let n = counter.fetch_add(1, Ordering::Relaxed);
                let single = git_single(&single_repo, n, &path, c.symlink, c.ntfs, c.hfs);
                if single != refuses {
                    vkit::machinery!("git oracles disagree for {:?}: --stdin says refuses={refuses}, --cacheinfo says {single}", path.as_bstr());
                }
                cross_checked.fetch_add(1, Ordering::Relaxed);
            }
            let model = !gitc::verify_path(&path, c.symlink, c.ntfs, c.hfs);
            if model != refuses {
                vkit::machinery!(
                    "transcription disagrees with git for {:?} symlink={} ntfs={} hfs={}: git refuses={refuses}, transcription refuses={model}",
                    path.as_bstr(),
                    c.symlink,
                    c.ntfs,
                    c.hfs
                );
            }
            if refuses {
                git_refused.fetch_add(1, Ordering::Relaxed);
                // refused only because of one protection (the same path is fine with it off)
                if c.hfs && gitc::verify_path(&path, c.symlink, c.ntfs, false) {
                    hfs_only.fetch_add(1, Ordering::Relaxed);
                }
                if c.ntfs && gitc::verify_path(&path, c.symlink, false, c.hfs) {
                    ntfs_only.fetch_add(1, Ordering::Relaxed);
                }
            }
            judge(c, refuses)
        },
    );
    run.cov_add("oracle_calls_git", run.sub_evaluations("git"));
    run.cov("git_cacheinfo_cross_checks", cross_checked.load(Ordering::Relaxed));
    run.require("git refused some paths", git_refused.load(Ordering::Relaxed) > 0);
    run.require("some paths are refused only because of protectHFS", hfs_only.load(Ordering::Relaxed) > 0);
    run.require("some paths are refused only because of protectNTFS", ntfs_only.load(Ordering::Relaxed) > 0);
    run.require("the two git oracles were cross-checked", cross_checked.load(Ordering::Relaxed) > 0);

    // ---------------- transcription on the big space ----------------
    let model_refused = AtomicU64::new(0);
    run.sub(
        "model",
        |emit| {
            let mut seen = HashSet::new();
            // token strings one longer than what git was asked (shorter ones were answered by git itself)
            enumerate::strings(&toks, git_token_len + 1, git_token_len + 1, |s| {
                if seen.insert(vkit::hash_of(s)) {
                    for symlink in [false, true] {
                        if symlink && !is_modules_family(s) {
                            continue;
                        }
                        for ntfs in [false, true] {
                            for hfs in [false, true] {
                                emit(Case { comp: B(s.to_vec()), pos: 0, symlink, ntfs, hfs });
                            }
                        }
                    }
                }
            });
            // all case masks of .gitmodules / gitmod~1 / gi7eba~1 with NTFS suffixes
            for (word, n) in [(&b".gitmodules"[..], 10u32), (b"gitmod~1", 6), (b"gi7eba~1", 5), (b".git", 3), (b"git~1", 3)] {
                for w in case_masks(word, 0..(1u32 << n)) {
                    for su in ["", " ", ".", ":", ". :x", "x", " x"] {
                        let comp = [&w[..], su.as_bytes()].concat();
                        for symlink in [false, true] {
                            for ntfs in [false, true] {
                                for hfs in [false, true] {
                                    emit(Case { comp: B(comp.clone()), pos: 0, symlink, ntfs, hfs });
                                }
                            }
                        }
                    }
                }
            }
        },
        |c: &Case| -> Verdict {
            let refuses = !gitc::verify_path(&c.path(), c.symlink, c.ntfs, c.hfs);
            if refuses {
                model_refused.fetch_add(1, Ordering::Relaxed);
            }
            judge(c, refuses)
        },
    );
    run.require("the transcription refused some model paths", model_refused.load(Ordering::Relaxed) > 0);

    // ---------------- Windows-only refusals ----------------
    let win_refused = AtomicU64::new(0);
    run.sub(
        "windows",
        |emit| {
            let mut names: Vec<Vec<u8>> = Vec::new();
            for dev in ["con", "prn", "aux", "nul", "conin$", "conout$", "conin", "conout", "co", "com", "lpt", "au", "nu", "pr", "null", "auxx", "a", "x"] {
                names.extend(case_masks(dev.as_bytes(), [0u32, 0xff, 1, 2, 4].into_iter()));
            }
            for d in 0..=9u8 {
                for dev in ["com", "lpt", "COM", "Lpt"] {
                    names.push(format!("{dev}{d}").into_bytes());
                }
            }
            names.push(b"com10".to_vec());
            names.push(b"lpt10".to_vec());
            names.sort();
            names.dedup();
            let suffix_tokens: [&[u8]; 9] = [b" ", b".", b":", b"x", b".txt", b"$", b"\x01", b"*", b"\xc3\xa9"];
            let mut suffixes = Vec::new();
            enumerate::strings(&suffix_tokens, 0, if quick { 2 } else { 3 }, |s| suffixes.push(s.to_vec()));
            for n in &names {
                for su in &suffixes {
                    for pre in [&b""[..], b" ", b"x"] {
                        let comp = [pre, &n[..], &su[..]].concat();
                        emit(Case { comp: B(comp), pos: 0, symlink: false, ntfs: true, hfs: false });
                    }
                }
            }
        },
        |c: &Case| -> Verdict {
            let win_invalid = !gitc::is_valid_win32_path(&c.comp);
            let linux_refuses = !gitc::verify_path(&c.comp, false, true, false);
            let refuses = win_invalid || linux_refuses;
            if refuses {
                win_refused.fetch_add(1, Ordering::Relaxed);
            }
            let gix = gix_validate::path::component(c.comp.as_bstr(), None, Options { protect_windows: true, protect_hfs: false, protect_ntfs: true });
            match (refuses, gix) {
                (true, Ok(_)) => bad(
                    "accepted-windows",
                    format!("git for Windows refuses component {:?} (is_valid_win32_path) but gitoxide accepts it with protect_windows+protect_ntfs", c.comp.as_bstr()),
                ),
                (true, Err(e)) => ok(format!("win-both-refuse:{e:?}")),
                (false, Err(e)) => ok_trivial(format!("win-gix-stricter:{e:?}")),
                (false, Ok(_)) => ok_trivial("win-both-accept"),
            }
        },
    );
    run.require("the windows transcription refused some names", win_refused.load(Ordering::Relaxed) > 0);
}
