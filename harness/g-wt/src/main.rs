mod c40;
mod c41;
mod c42;
mod c43;
use vkit::{Check, Level};
fn main() {
    let checks: &[Check] = &[
        Check { id: "C40", level: Level::Exploration, run: c40::run },
        Check { id: "C41", level: Level::Exploration, run: c41::run },
        Check { id: "C42", level: Level::ModelChecking, run: c42::run },
        Check { id: "C43", level: Level::Exploration, run: c43::run },
    ];
    vkit::main(checks);
}
