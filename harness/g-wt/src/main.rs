mod c40;
mod c42;
use vkit::{Check, Level};
fn main() {
    let checks: &[Check] = &[
        Check { id: "C40", level: Level::Exploration, run: c40::run },
        Check { id: "C42", level: Level::ModelChecking, run: c42::run },
    ];
    vkit::main(checks);
}
