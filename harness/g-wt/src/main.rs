mod c40;
use vkit::{Check, Level};
fn main() {
    let checks: &[Check] = &[Check { id: "C40", level: Level::Exploration, run: c40::run }];
    vkit::main(checks);
}
