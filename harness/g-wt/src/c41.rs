//! C41 — checkout stays inside the destination and never writes into dest/.git, for hostile indices
//! (E1/E2: all subsets of an entry alphabet x destination state x options, real gix_worktree_state::checkout on a sandbox).
use bstr::ByteSlice;
use gix_hash::ObjectId;
use serde::{Deserialize, Serialize};
use std::collections::{BTreeMap, HashMap};
use std::sync::atomic::{AtomicBool, AtomicU64, Ordering};
use std::sync::Arc;
use vkit::{bad, enumerate, ok, ok_trivial, Run, Verdict};

#[derive(Clone, Copy, Debug, PartialEq)]
enum K {
    File,
    Exe,
    /// symlink with this target; `@OUT` is replaced by the absolute path of the directory outside the destination
    Link(&'static str),
}

/// (path, kind, benign). `@OUT` in a path is replaced by the absolute path of the outside directory.
const ENTRIES: [(&str, K, bool); 33] = [
    ("a", K::File, true),
    ("b", K::Exe, true),
    ("d/f", K::File, true),
    ("A", K::File, true),
    ("s", K::Link("d"), true),
    ("d/up", K::Link("../a"), true),
    ("dangling", K::Link("nowhere"), true),
    // paths that traverse an earlier symlink
    ("l", K::Link("d"), false),
    ("l", K::Link(".."), false),
    ("l", K::Link("../outside/vd"), false),
    ("l", K::Link("@OUT/vd"), false),
    ("l", K::Link(".git"), false),
    ("l/f", K::File, false),
    ("l/config", K::File, false),
    ("l/sub/f", K::File, false),
    ("l/ln", K::Link("a"), false),
    // several children below the same hostile symlink (the first one being refused must not vet the symlink for the next ones)
    ("l/ln2", K::Link("b"), false),
    ("l/ln3", K::Link("nowhere"), false),
    ("l/sub/ln", K::Link("../a"), false),
    ("l/ln/c", K::File, false), // nested below the former leaf `l/ln`
    ("d/up2", K::Link("../b"), false),
    // direct attacks on the repository directory and on the outside
    (".git/config", K::File, false),
    (".git/hooks/x", K::Exe, false),
    (".GIT/config", K::File, false),
    ("git~1/config", K::File, false),
    (".git", K::Link("../outside/vd"), false),
    ("../outside/escape", K::File, false),
    ("d/../../outside/escape", K::File, false),
    ("@OUT/escape", K::File, false),
    ("a/b", K::File, false), // D/F conflict with `a`
    ("d", K::Link("../outside/vd"), false), // D/F conflict with `d/f`: directory vs symlink
    (".gitmodules", K::Link("../outside/victim"), false),
    ("b/x", K::File, false), // D/F conflict with executable `b`
];

#[derive(Serialize, Deserialize, Hash, Clone, Debug)]
struct Case {
    /// indices into ENTRIES (distinct paths)
    entries: Vec<u8>,
    /// destination pre-populated with symlinks pointing outside (`a`, `d`, `l`) and a stale file `b`
    prepopulated: bool,
    overwrite_existing: bool,
    keep_going: bool,
    threads: u8,
    /// 0 = all protections (default), 1 = only the always-on `.git` check
    validate: u8,
}

#[derive(Clone)]
struct Mem(Arc<HashMap<ObjectId, Vec<u8>>>);
impl gix_object::Find for Mem {
    fn try_find<'a>(&self, id: &gix_hash::oid, buffer: &'a mut Vec<u8>) -> Result<Option<gix_object::Data<'a>>, gix_object::find::Error> {
        match self.0.get(id) {
            Some(b) => {
                buffer.clear();
                buffer.extend_from_slice(b);
                Ok(Some(gix_object::Data { kind: gix_object::Kind::Blob, data: buffer }))
            }
            None => Ok(None),
        }
    }
}

const PAYLOAD: &[u8] = b"payload from the index\n";

type Snap = BTreeMap<String, (char, u32, Vec<u8>)>;

fn diff(before: &Snap, after: &Snap) -> Option<String> {
    for (k, v) in after {
        match before.get(k) {
            None => return Some(format!("created {k:?} ({} {:?})", v.0, v.2.as_bstr())),
            Some(b) if b != v => return Some(format!("modified {k:?}: {:?} -> {:?}", (b.0, b.1, b.2.as_bstr()), (v.0, v.1, v.2.as_bstr()))),
            _ => {}
        }
    }
    for k in before.keys() {
        if !after.contains_key(k) {
            return Some(format!("removed {k:?}"));
        }
    }
    None
}

fn eval(c: &Case, escapes_attempted: &AtomicU64) -> Verdict {
    let io = |what: &str, e: std::io::Error| -> ! { vkit::machinery!("fixture {what}: {e}") };
    let sandbox = vkit::scratch::Dir::new("c41");
    let root = sandbox.path();
    let outside = root.join("outside");
    let dest = root.join("dest");
    std::fs::create_dir_all(outside.join("vd")).unwrap_or_else(|e| io("mkdir", e));
    std::fs::write(outside.join("victim"), b"victim\n").unwrap_or_else(|e| io("write", e));
    std::fs::write(outside.join("vd/inner"), b"inner\n").unwrap_or_else(|e| io("write", e));
    std::fs::create_dir_all(dest.join(".git/hooks")).unwrap_or_else(|e| io("mkdir", e));
    std::fs::write(dest.join(".git/config"), b"[core]\n").unwrap_or_else(|e| io("write", e));
    std::fs::write(dest.join(".git/HEAD"), b"ref: refs/heads/main\n").unwrap_or_else(|e| io("write", e));
    if c.prepopulated {
        std::os::unix::fs::symlink("../outside/victim", dest.join("a")).unwrap_or_else(|e| io("symlink", e));
        std::os::unix::fs::symlink("../outside/vd", dest.join("d")).unwrap_or_else(|e| io("symlink", e));
        std::os::unix::fs::symlink("../outside/vd", dest.join("l")).unwrap_or_else(|e| io("symlink", e));
        std::fs::write(dest.join("b"), b"stale\n").unwrap_or_else(|e| io("write", e));
    }
    let out_abs = outside.to_str().unwrap_or_else(|| vkit::machinery!("non-utf8 scratch path")).to_string();

    // index + objects
    let mut objects: HashMap<ObjectId, Vec<u8>> = HashMap::new();
    let mut index = gix_index::State::new(gix_hash::Kind::Sha1);
    let mut all_benign = true;
    let mut expected: Snap = BTreeMap::new();
    for &i in &c.entries {
        let (path, kind, benign) = ENTRIES[i as usize];
        all_benign &= benign;
        let path = path.replace("@OUT", &out_abs);
        let (data, mode): (Vec<u8>, gix_index::entry::Mode) = match kind {
            K::File => (PAYLOAD.to_vec(), gix_index::entry::Mode::FILE),
            K::Exe => (PAYLOAD.to_vec(), gix_index::entry::Mode::FILE_EXECUTABLE),
            K::Link(t) => (t.replace("@OUT", &out_abs).into_bytes(), gix_index::entry::Mode::SYMLINK),
        };
        let id = gix_object::compute_hash(gix_hash::Kind::Sha1, gix_object::Kind::Blob, &data);
        objects.insert(id, data.clone());
        index.dangerously_push_entry(Default::default(), id, gix_index::entry::Flags::empty(), mode, path.as_bytes().as_bstr());
        if let Some((dir, _)) = path.rsplit_once('/') {
            expected.insert(dir.to_string(), ('d', 0, Vec::new()));
        }
        expected.insert(
            path.clone(),
            match kind {
                K::File => ('f', 0, data),
                K::Exe => ('f', 0o100, data),
                K::Link(_) => ('l', 0, data),
            },
        );
    }
    index.sort_entries();

    let take = |s: Snap| -> (Snap, Snap) {
        // (everything that must not change, the worktree part of the destination)
        let mut protected = Snap::new();
        let mut worktree = Snap::new();
        for (k, v) in s {
            if k == "dest" {
                continue;
            }
            match k.strip_prefix("dest/") {
                Some(rest) if rest != ".git" && !rest.starts_with(".git/") => {
                    worktree.insert(rest.to_string(), v);
                }
                _ => {
                    protected.insert(k, v);
                }
            }
        }
        (protected, worktree)
    };
    let (before, _) = take(vkit::scratch::snapshot(root));

    let opts = gix_worktree_state::checkout::Options {
        fs: gix_fs::Capabilities::default(),
        validate: if c.validate == 0 {
            Default::default()
        } else {
            gix_worktree::validate::path::component::Options { protect_windows: false, protect_hfs: false, protect_ntfs: false }
        },
        thread_limit: Some(c.threads as usize),
        destination_is_initially_empty: !c.prepopulated,
        overwrite_existing: c.overwrite_existing,
        keep_going: c.keep_going,
        ..Default::default()
    };
    let res = gix_worktree_state::checkout(
        &mut index,
        dest.clone(),
        Mem(Arc::new(objects)),
        &gix_features::progress::Discard,
        &gix_features::progress::Discard,
        &AtomicBool::new(false),
        opts,
    );
    let (after, worktree) = take(vkit::scratch::snapshot(root));
    let names: Vec<String> = c.entries.iter().map(|&i| format!("{} {:?}", ENTRIES[i as usize].0, ENTRIES[i as usize].1)).collect();
    let desc = format!(
        "index [{}] into {} destination (overwrite_existing={}, keep_going={}, threads={}, validate={})",
        names.join(", "),
        if c.prepopulated { "a pre-populated" } else { "an empty" },
        c.overwrite_existing,
        c.keep_going,
        c.threads,
        if c.validate == 0 { "all" } else { "minimal" }
    );
    if let Some(d) = diff(&before, &after) {
        // the index holds a symlink `P` and another symlink `P/..` (impossible in a well-formed index, possible from a tree with duplicate names)
        let symlink_pair = c.entries.iter().any(|&i| {
            let (p, k, _) = ENTRIES[i as usize];
            matches!(k, K::Link(_)) && c.entries.iter().any(|&j| matches!(ENTRIES[j as usize].1, K::Link(_)) && ENTRIES[j as usize].0.starts_with(&format!("{p}/")))
        });
        // ... and additionally a non-symlink entry below `P`, with overwrite_existing: the checkout first creates the directory `P`, then
        // replaces it (remove_dir_all) by the delayed symlink `P`, while the path stack still believes `P` is a verified directory
        // With more than one thread the delayed symlinks are collected per chunk in completion order, so `P` may also be processed after
        // some `P/x` symlinks (which made `P` a real directory) and replace that directory just the same.
        let replaced_directory = symlink_pair
            && c.overwrite_existing
            && (c.threads > 1 || c.entries.iter().any(|&i| {
                let (p, k, _) = ENTRIES[i as usize];
                matches!(k, K::Link(_))
                    && c.entries.iter().any(|&j| !matches!(ENTRIES[j as usize].1, K::Link(_)) && ENTRIES[j as usize].0.starts_with(&format!("{p}/")))
            }));
        if replaced_directory {
            let class = if d.contains("dest/.git") { "wrote-into-git-dir-via-replaced-directory" } else { "escaped-destination-via-replaced-directory" };
            return bad(class, format!("{desc}: checkout {d} (result: {})", res.as_ref().map(|_| "ok".to_string()).unwrap_or_else(|e| e.to_string())));
        }
        let class = match (d.contains("dest/.git"), symlink_pair) {
            (true, false) => "wrote-into-git-dir",
            (false, false) => "escaped-destination",
            (true, true) => "wrote-into-git-dir-via-symlink-pair",
            (false, true) => "escaped-destination-via-symlink-pair",
        };
        return bad(class, format!("{desc}: checkout {d} (result: {})", res.as_ref().map(|_| "ok".to_string()).unwrap_or_else(|e| e.to_string())));
    }
    // benign indices into an empty destination are reproduced exactly
    if all_benign && !c.prepopulated {
        let outcome = match &res {
            Ok(o) => o,
            Err(e) => return bad("benign-failed", format!("{desc}: checkout failed: {e}")),
        };
        if !outcome.errors.is_empty() || !outcome.collisions.is_empty() {
            return bad(
                "benign-failed",
                format!("{desc}: errors {:?} collisions {:?}", outcome.errors.iter().map(|e| e.path.to_string()).collect::<Vec<_>>(), outcome.collisions.iter().map(|e| e.path.to_string()).collect::<Vec<_>>()),
            );
        }
        let got: Snap = worktree.into_iter().map(|(k, v)| if v.0 == 'd' { (k, ('d', 0, Vec::new())) } else if v.0 == 'f' { (k, ('f', v.1 & 0o100, v.2)) } else { (k, v) }).collect();
        if got != expected {
            return bad("benign-differs", format!("{desc}: worktree {:?}, expected {:?}", got.iter().map(|(k, v)| (k, v.0, v.1, v.2.as_bstr())).collect::<Vec<_>>(), expected.iter().map(|(k, v)| (k, v.0, v.1, v.2.as_bstr())).collect::<Vec<_>>()));
        }
        return if c.entries.is_empty() { ok_trivial("empty-index") } else { ok("benign-reproduced") };
    }
    if all_benign {
        // pre-populated destination: symlinks pointing outside sit where files must be written; nothing outside changed
        escapes_attempted.fetch_add(1, Ordering::Relaxed);
        return ok(format!("prepopulated-{}", if res.is_ok() { "ok" } else { "refused" }));
    }
    escapes_attempted.fetch_add(1, Ordering::Relaxed);
    match &res {
        Ok(o) => ok(format!("hostile-contained-ok-errors{}-collisions{}", o.errors.len().min(2), o.collisions.len().min(2))),
        Err(_) => ok("hostile-refused"),
    }
}

// ---------------------------------------------------------------------------------------------------------------------
// An obstacle exactly at the path of an index entry in a non-empty destination (what `git checkout -f` replaces).
#[derive(Serialize, Deserialize, Hash, Clone, Debug)]
struct ObstacleCase {
    /// 0 = regular file, 1 = executable, 2 = symlink (-> `z`)
    entry_kind: u8,
    /// false: entry path `a`; true: entry path `d/f` (the directory `d` exists)
    nested: bool,
    /// 0 dangling symlink, 1 self-loop symlink, 2 symlink to a directory inside, 3 symlink to a directory outside,
    /// 4 symlink to a file outside, 5 stale regular file
    obstacle: u8,
    overwrite_existing: bool,
    keep_going: bool,
    threads: u8,
}

fn eval_obstacle(c: &ObstacleCase, replaced: &AtomicU64, reported: &AtomicU64) -> Verdict {
    let io = |what: &str, e: std::io::Error| -> ! { vkit::machinery!("fixture {what}: {e}") };
    let sandbox = vkit::scratch::Dir::new("c41o");
    let root = sandbox.path();
    let outside = root.join("outside");
    let dest = root.join("dest");
    std::fs::create_dir_all(outside.join("vd")).unwrap_or_else(|e| io("mkdir", e));
    std::fs::write(outside.join("victim"), b"victim\n").unwrap_or_else(|e| io("write", e));
    std::fs::write(outside.join("vd/inner"), b"inner\n").unwrap_or_else(|e| io("write", e));
    std::fs::create_dir_all(dest.join(".git")).unwrap_or_else(|e| io("mkdir", e));
    std::fs::write(dest.join(".git/config"), b"[core]\n").unwrap_or_else(|e| io("write", e));
    std::fs::create_dir_all(dest.join("inside")).unwrap_or_else(|e| io("mkdir", e));
    std::fs::write(dest.join("inside/keep"), b"keep\n").unwrap_or_else(|e| io("write", e));
    let path = if c.nested { "d/f" } else { "a" };
    let up = if c.nested { "../" } else { "" };
    if c.nested {
        std::fs::create_dir_all(dest.join("d")).unwrap_or_else(|e| io("mkdir", e));
    }
    let leaf = if c.nested { "f" } else { "a" };
    let obstacle_target: Option<String> = match c.obstacle {
        0 => Some("does-not-exist".to_string()),
        1 => Some(leaf.to_string()),
        2 => Some(format!("{up}inside")),
        3 => Some(format!("{up}../outside/vd")),
        4 => Some(format!("{up}../outside/victim")),
        _ => None,
    };
    match &obstacle_target {
        Some(t) => std::os::unix::fs::symlink(t, dest.join(path)).unwrap_or_else(|e| io("symlink", e)),
        None => std::fs::write(dest.join(path), b"stale\n").unwrap_or_else(|e| io("write", e)),
    }

    let mut objects: HashMap<ObjectId, Vec<u8>> = HashMap::new();
    let mut index = gix_index::State::new(gix_hash::Kind::Sha1);
    let (data, mode, want): (Vec<u8>, gix_index::entry::Mode, (char, u32, Vec<u8>)) = match c.entry_kind {
        0 => (PAYLOAD.to_vec(), gix_index::entry::Mode::FILE, ('f', 0, PAYLOAD.to_vec())),
        1 => (PAYLOAD.to_vec(), gix_index::entry::Mode::FILE_EXECUTABLE, ('f', 0o100, PAYLOAD.to_vec())),
        _ => (b"z".to_vec(), gix_index::entry::Mode::SYMLINK, ('l', 0, b"z".to_vec())),
    };
    for (p, d, m) in [(path, data.clone(), mode), ("z", b"zed\n".to_vec(), gix_index::entry::Mode::FILE)] {
        let id = gix_object::compute_hash(gix_hash::Kind::Sha1, gix_object::Kind::Blob, &d);
        objects.insert(id, d);
        index.dangerously_push_entry(Default::default(), id, gix_index::entry::Flags::empty(), m, p.as_bytes().as_bstr());
    }
    index.sort_entries();

    let split = |s: Snap| -> (Snap, Snap) {
        let mut protected = Snap::new();
        let mut worktree = Snap::new();
        for (k, v) in s {
            if k == "dest" {
                continue;
            }
            match k.strip_prefix("dest/") {
                Some(rest) if rest != ".git" && !rest.starts_with(".git/") => {
                    let v = match v.0 {
                        'd' => ('d', 0, Vec::new()),
                        'f' => ('f', v.1 & 0o100, v.2),
                        _ => v,
                    };
                    worktree.insert(rest.to_string(), v);
                }
                _ => {
                    protected.insert(k, v);
                }
            }
        }
        (protected, worktree)
    };
    let (before, wt_before) = split(vkit::scratch::snapshot(root));
    let opts = gix_worktree_state::checkout::Options {
        fs: gix_fs::Capabilities::default(),
        thread_limit: Some(c.threads as usize),
        destination_is_initially_empty: false,
        overwrite_existing: c.overwrite_existing,
        keep_going: c.keep_going,
        ..Default::default()
    };
    let res = gix_worktree_state::checkout(
        &mut index,
        dest.clone(),
        Mem(Arc::new(objects)),
        &gix_features::progress::Discard,
        &gix_features::progress::Discard,
        &AtomicBool::new(false),
        opts,
    );
    let (after, wt_after) = split(vkit::scratch::snapshot(root));
    let kind = ["file", "executable", "symlink -> z"][c.entry_kind as usize % 3];
    let obst = match &obstacle_target {
        Some(t) => format!("symlink -> {t}"),
        None => "stale regular file".to_string(),
    };
    let desc = format!(
        "index [{path} ({kind}), z] into a destination that has {path} = {obst} (overwrite_existing={}, keep_going={}, threads={})",
        c.overwrite_existing, c.keep_going, c.threads
    );
    let res_text = match &res {
        Ok(o) => format!(
            "ok, errors {:?}, collisions {:?}",
            o.errors.iter().map(|e| format!("{}: {}", e.path, e.error)).collect::<Vec<_>>(),
            o.collisions.iter().map(|e| e.path.to_string()).collect::<Vec<_>>()
        ),
        Err(e) => format!("error: {e}"),
    };
    if let Some(d) = diff(&before, &after) {
        let class = if d.contains("dest/.git") { "obstacle-wrote-into-git-dir" } else { "obstacle-escaped-destination" };
        return bad(class, format!("{desc}: checkout {d} (result: {res_text})"));
    }
    let show = |s: &Snap| s.iter().map(|(k, v)| format!("{k}={}:{:o}:{:?}", v.0, v.1, v.2.as_bstr())).collect::<Vec<_>>().join(", ");
    if c.overwrite_existing {
        // like `git checkout -f`: whatever is in the way is replaced by what the index says
        let mut expected = wt_before.clone();
        expected.insert(path.to_string(), want);
        expected.insert("z".to_string(), ('f', 0, b"zed\n".to_vec()));
        let clean = matches!(&res, Ok(o) if o.errors.is_empty() && o.collisions.is_empty());
        if !clean {
            return bad("obstacle-not-replaced", format!("{desc}: checkout must replace the obstacle, but the result is {res_text}; worktree [{}]", show(&wt_after)));
        }
        if wt_after != expected {
            return bad("obstacle-not-replaced", format!("{desc}: worktree is [{}], expected [{}] (result: {res_text})", show(&wt_after), show(&expected)));
        }
        replaced.fetch_add(1, Ordering::Relaxed);
        return ok(format!("replaced-{}", if obstacle_target.is_some() { "symlink" } else { "file" }));
    }
    // without overwrite_existing a symlink in the way must stay what it is and be reported
    if obstacle_target.is_some() {
        if wt_after.get(path) != wt_before.get(path) {
            return bad("obstacle-changed-without-overwrite", format!("{desc}: {path} changed: worktree [{}] (result: {res_text})", show(&wt_after)));
        }
        let is_reported = match &res {
            Ok(o) => o.collisions.iter().any(|x| x.path == path) || o.errors.iter().any(|x| x.path == path),
            Err(_) => true,
        };
        if !is_reported {
            return bad("obstacle-not-reported", format!("{desc}: {path} was left alone but neither reported as collision nor as error (result: {res_text})"));
        }
        reported.fetch_add(1, Ordering::Relaxed);
        return ok(if res.is_ok() { "kept-and-reported" } else { "kept-and-failed" });
    }
    ok_trivial(format!("stale-file-without-overwrite-{}", if wt_after.get(path) == wt_before.get(path) { "kept" } else { "rewritten" }))
}

pub fn run(run: &'static Run) {
    run.rule(
        "index = every set of <=2 (quick) / <=3 (thorough) entries with distinct paths out of 33 templates: benign {a, b(exe), d/f, A, s->d, d/up->../a, dangling link}; \
         symlink `l` -> {d, .., ../outside/vd, <abs outside>/vd, .git} combined with entries l/f, l/config, l/sub/f, l/ln, l/ln2, l/ln3, l/sub/ln (symlinks), l/ln/c that traverse it, plus (both tiers) every hostile symlink with every set of 2..3 (quick) / 2..4 (thorough) entries below it; direct attacks {.git/config, .git/hooks/x, .GIT/config, git~1/config, .git as symlink, \
         ../outside/escape, d/../../outside/escape, <abs outside>/escape}; D/F conflicts {a + a/b, d/f + d as symlink to outside, b + b/x}; symlinked .gitmodules; \
         x destination {empty, pre-populated with symlinks a,d,l pointing outside and a stale file} x overwrite_existing x keep_going x (thread_limit, validation) in {(1,all),(1,minimal),(2,all)} (quick: family only into the empty destination, other indices without `minimal`); \
         sub-check obstacle (both tiers): one index entry {file, executable, symlink} at `a` or `d/f` plus a benign `z`, into a non-empty destination that holds at exactly that path \
         {dangling symlink, self-loop symlink, symlink to an inside directory, symlink to an outside directory, symlink to an outside file, stale regular file} x overwrite_existing x keep_going x thread_limit {1,2}: \
         with overwrite_existing the obstacle is replaced by the index content/mode/target without errors or collisions (what `git checkout -f` does), without it a symlink obstacle stays untouched and is reported; \
         oracle: full snapshot (paths, types, modes, contents, link targets) of the sandbox outside the destination and of dest/.git is identical before and after; benign indices into an empty destination are reproduced exactly (content, exec bit, link target, no errors); \
         non-trivial = the index is non-empty",
    );
    run.assume("the index is built in memory with State::dangerously_push_entry so that hostile paths reach the checkout code itself; objects come from an in-memory store");
    run.assume("the git-equivalence half of the property is checked against the obvious materialisation model (file content, executable bit, symlink target) for benign indices only, not against `git checkout-index`; filters are covered by C43");
    run.budget_secs(run.pick(36.0, 560.0));
    let quick = run.quick();
    let attempted = AtomicU64::new(0);
    run.sub_with(
        "checkout",
        vkit::Opts::default().chunk(2048).watchdog(60.0),
        |emit| {
            let idx: Vec<u8> = (0..ENTRIES.len() as u8).collect();
            let mut base: Vec<Vec<u8>> = Vec::new();
            enumerate::subsets(&idx, 0, if quick { 2 } else { 3 }, |set| base.push(set.to_vec()));
            let mut sets: Vec<Vec<u8>> = Vec::new();
            // family (both tiers): every hostile symlink `P` together with every set of 2..3 (quick) / 2..4 (thorough) entries below `P/`
            let mut seen: std::collections::HashSet<Vec<u8>> = base.iter().cloned().collect();
            for &p in &idx {
                let (ppath, pkind, benign) = ENTRIES[p as usize];
                if benign || !matches!(pkind, K::Link(_)) {
                    continue;
                }
                let children: Vec<u8> = idx.iter().copied().filter(|&j| ENTRIES[j as usize].0.starts_with(&format!("{ppath}/"))).collect();
                enumerate::subsets(&children, 2, if quick { 3 } else { 4 }, |ch| {
                    let mut set = ch.to_vec();
                    set.push(p);
                    set.sort();
                    if seen.insert(set.clone()) {
                        sets.push(set);
                    }
                });
            }
            let n_family = sets.len();
            sets.extend(base);
            for (k, set) in sets.iter().enumerate() {
                let family = k < n_family;
                let set = &set[..];
                // distinct paths only
                let mut paths: Vec<&str> = set.iter().map(|&i| ENTRIES[i as usize].0).collect();
                paths.sort();
                if paths.windows(2).any(|w| w[0] == w[1]) {
                    continue;
                }
                for prepopulated in [false, true] {
                    for overwrite_existing in [false, true] {
                        for keep_going in [false, true] {
                            for threads in [1u8, 2] {
                                for validate in [0u8, 1] {
                                    if threads == 2 && validate == 1 {
                                        continue;
                                    }
                                    // quick: the family only into an empty destination; the base sets with (1,all) and (2,all) only
                                    if quick && ((family && prepopulated) || (!family && validate == 1)) {
                                        continue;
                                    }
                                    emit(Case { entries: set.to_vec(), prepopulated, overwrite_existing, keep_going, threads, validate });
                                }
                            }
                        }
                    }
                }
            }
        },
        |c: &Case| eval(c, &attempted),
    );
    run.require("hostile or pre-populated checkouts were explored", attempted.load(Ordering::Relaxed) > 0);

    let (replaced, reported) = (AtomicU64::new(0), AtomicU64::new(0));
    run.sub_with(
        "obstacle",
        vkit::Opts::default().chunk(512).watchdog(60.0),
        |emit| {
            for obstacle in 0..6u8 {
                for entry_kind in 0..3u8 {
                    for nested in [false, true] {
                        for overwrite_existing in [true, false] {
                            for keep_going in [false, true] {
                                for threads in [1u8, 2] {
                                    emit(ObstacleCase { entry_kind, nested, obstacle, overwrite_existing, keep_going, threads });
                                }
                            }
                        }
                    }
                }
            }
        },
        |c: &ObstacleCase| eval_obstacle(c, &replaced, &reported),
    );
    run.require("obstacles were replaced with overwrite_existing", replaced.load(Ordering::Relaxed) > 0);
    run.require("symlink obstacles were kept and reported without overwrite_existing", reported.load(Ordering::Relaxed) > 0);
}
