//! C42 — the worktree path stack stays consistent across rejected pushes (model checking: all histories up to a depth on the
//! real `gix_fs::Stack` / `gix_worktree::Stack`, compared with a reference model after every call).
use serde::{Deserialize, Serialize};
use std::path::{Path, PathBuf};
use std::sync::atomic::{AtomicU64, Ordering};
use vkit::{bad, enumerate, ok, ok_trivial, Run, Verdict};

/// Lock-free accounting (the machine is shared; a global lock per history serialises the workers): distinct states are recorded in a
/// bitmap indexed by the low 24 bits of the state hash (a collision can only under-count), transitions in an atomic counter.
const BITS: usize = 1 << 24;
static BITMAP: [AtomicU64; BITS / 64] = [const { AtomicU64::new(0) }; BITS / 64];
static TRANSITIONS: AtomicU64 = AtomicU64::new(0);

fn note(states: Vec<u64>, transitions: u64) {
    TRANSITIONS.fetch_add(transitions, Ordering::Relaxed);
    for s in states {
        let bit = (s as usize) & (BITS - 1);
        if BITMAP[bit / 64].load(Ordering::Relaxed) >> (bit % 64) & 1 == 0 {
            BITMAP[bit / 64].fetch_or(1 << (bit % 64), Ordering::Relaxed);
        }
    }
}

fn flush(run: &Run) {
    let mut set = Vec::new();
    for (w, word) in BITMAP.iter().enumerate() {
        let v = word.swap(0, Ordering::Relaxed);
        if v != 0 {
            for b in 0..64 {
                if v >> b & 1 == 1 {
                    set.push((w * 64 + b) as u64);
                }
            }
        }
    }
    run.mc_states_bulk(set);
    let t = TRANSITIONS.swap(0, Ordering::Relaxed);
    run.mc_transitions(t);
    run.mc_validated(t);
}

/// Which `push()` calls the delegate rejects.
#[derive(Serialize, Deserialize, Hash, Clone, Debug, PartialEq, Eq)]
enum Plan {
    None,
    /// the k-th push call of the history (1-based) is rejected
    Kth(u8),
    /// the k1-th and k2-th push calls are rejected
    Kth2(u8, u8),
    /// every push whose component is named `b` is rejected if it is a directory component (`dir`) / the last component (`leaf`)
    NameB { dir: bool, leaf: bool },
    /// the k-th `push_directory()` call that announces the *former leaf* as directory (no `push()` before it in the same call) is
    /// rejected — what gix-worktree's checkout delegate does when that leaf turns out to be a symlink or file
    LeafDir(u8),
    /// every such call is rejected
    LeafDirAll,
}

#[derive(Serialize, Deserialize, Hash, Clone, Debug)]
struct History {
    paths: Vec<String>,
    plan: Plan,
}

#[derive(Debug, Clone, PartialEq)]
enum Ev {
    /// (path, rejected)
    PushDir(PathBuf, bool),
    Push { rel: PathBuf, is_last: bool, rejected: bool },
    PopDir,
}

struct Rec {
    root: PathBuf,
    plan: Plan,
    push_calls: u32,
    leaf_dir_calls: u32,
    log: Vec<Ev>,
    /// `current() != root.join(current_relative())` seen inside a callback
    incoherent: Option<String>,
}
impl Rec {
    fn check(&mut self, stack: &gix_fs::Stack) {
        if stack.current() != self.root.join(stack.current_relative()) && self.incoherent.is_none() {
            self.incoherent = Some(format!("current()={:?} but current_relative()={:?}", stack.current(), stack.current_relative()));
        }
    }
}
impl gix_fs::stack::Delegate for Rec {
    fn push_directory(&mut self, stack: &gix_fs::Stack) -> std::io::Result<()> {
        self.check(stack);
        let former_leaf = !stack.current_relative().as_os_str().is_empty() && !self.log.iter().any(|e| matches!(e, Ev::Push { .. }));
        let mut rejected = false;
        if former_leaf {
            self.leaf_dir_calls += 1;
            rejected = match self.plan {
                Plan::LeafDir(k) => self.leaf_dir_calls == k as u32,
                Plan::LeafDirAll => true,
                _ => false,
            };
        }
        self.log.push(Ev::PushDir(stack.current_relative().to_owned(), rejected));
        if rejected {
            Err(std::io::Error::new(std::io::ErrorKind::Other, "former leaf rejected as directory"))
        } else {
            Ok(())
        }
    }
    fn push(&mut self, is_last: bool, stack: &gix_fs::Stack) -> std::io::Result<()> {
        self.check(stack);
        self.push_calls += 1;
        let k = self.push_calls;
        let name_b = stack.current_relative().file_name().map_or(false, |n| n == "b");
        let rejected = match self.plan {
            Plan::None => false,
            Plan::Kth(a) => k == a as u32,
            Plan::Kth2(a, b) => k == a as u32 || k == b as u32,
            Plan::NameB { dir, leaf } => name_b && ((is_last && leaf) || (!is_last && dir)),
            Plan::LeafDir(_) | Plan::LeafDirAll => false,
        };
        self.log.push(Ev::Push { rel: stack.current_relative().to_owned(), is_last, rejected });
        if rejected {
            Err(std::io::Error::new(std::io::ErrorKind::Other, "rejected by plan"))
        } else {
            Ok(())
        }
    }
    fn pop_directory(&mut self) {
        self.log.push(Ev::PopDir);
    }
}

/// Reference model: the valid components, and whether the top one is known to be a directory (an open directory).
#[derive(Clone, Debug, Hash, PartialEq, Eq)]
struct Model {
    cur: Vec<String>,
    top_is_dir: bool,
}
impl Model {
    fn new() -> Self {
        Model { cur: Vec::new(), top_is_dir: true }
    }
    fn common(&self, comps: &[&str]) -> usize {
        self.cur.iter().zip(comps).take_while(|(a, b)| a.as_str() == **b).count()
    }
    /// `rejected_at`: index into `comps` of the component whose push was rejected
    fn step(&mut self, comps: &[&str], rejected_at: Option<usize>) {
        let common = self.common(comps);
        let popped = common < self.cur.len();
        match rejected_at {
            Some(j) => {
                self.cur = comps[..j].iter().map(|s| s.to_string()).collect();
                self.top_is_dir = true;
            }
            None => {
                let pushed = comps.len() > common;
                self.cur = comps.iter().map(|s| s.to_string()).collect();
                if pushed {
                    self.top_is_dir = false;
                } else if popped {
                    self.top_is_dir = true;
                }
            }
        }
    }
    /// the directories that must be open (pushed and not yet popped) in the delegate, root first, as relative paths
    fn open_dirs(&self) -> Vec<PathBuf> {
        let mut out = vec![PathBuf::new()];
        let n = if self.top_is_dir { self.cur.len() } else { self.cur.len().saturating_sub(1) };
        for i in 1..=n {
            out.push(PathBuf::from(self.cur[..i].join("/")));
        }
        out
    }
    fn rel(&self) -> PathBuf {
        PathBuf::from(self.cur.join("/"))
    }
}

fn paths_over(comps: &[&str], max_depth: usize) -> Vec<String> {
    let mut out = Vec::new();
    enumerate::seqs(comps, 1, max_depth, |s| out.push(s.join("/")));
    out
}

fn plans(max_pushes: u8, pairs: bool) -> Vec<Plan> {
    let mut v = vec![Plan::None];
    for k in 1..=max_pushes {
        v.push(Plan::Kth(k));
    }
    if pairs {
        for a in 1..=max_pushes {
            for b in a + 1..=max_pushes {
                v.push(Plan::Kth2(a, b));
            }
        }
    }
    v.push(Plan::NameB { dir: true, leaf: true });
    v.push(Plan::NameB { dir: true, leaf: false });
    v.push(Plan::NameB { dir: false, leaf: true });
    v.push(Plan::LeafDir(1));
    v.push(Plan::LeafDir(2));
    v.push(Plan::LeafDirAll);
    v
}

fn eval_fs(_run: &Run, h: &History, rejected_total: &AtomicU64) -> Verdict {
    let root = PathBuf::from("/r");
    let mut stack = gix_fs::Stack::new(root.clone());
    let mut rec = Rec { root: root.clone(), plan: h.plan.clone(), push_calls: 0, leaf_dir_calls: 0, log: Vec::new(), incoherent: None };
    let mut model = Model::new();
    let mut open: Vec<PathBuf> = Vec::new();
    let mut rejections = 0u32;
    let mut states = Vec::new();
    for (i, path) in h.paths.iter().enumerate() {
        rec.log.clear();
        let res = stack.make_relative_path_current(Path::new(path), &mut rec);
        let comps: Vec<&str> = path.split('/').collect();
        let common = model.common(&comps);
        let at = |what: &str| format!("call #{} make_relative_path_current({path:?}) after {:?}: {what}", i + 1, &h.paths[..i]);
        if let Some(m) = &rec.incoherent {
            return bad("current", at(m));
        }
        // pushes: exactly the components beyond the common prefix, in order, up to the rejected one
        let pushes: Vec<(&PathBuf, bool, bool)> = rec
            .log
            .iter()
            .filter_map(|e| match e {
                Ev::Push { rel, is_last, rejected } => Some((rel, *is_last, *rejected)),
                _ => None,
            })
            .collect();
        // a rejected announcement of the former leaf as directory: nothing may have been pushed, and nothing changes
        let dir_rejected = rec.log.iter().any(|e| matches!(e, Ev::PushDir(_, true)));
        if dir_rejected && !(common == model.cur.len() && common > 0 && !model.top_is_dir && comps.len() > common && pushes.is_empty()) {
            return bad("push-sequence", at(&format!("push_directory for a former leaf was called where the model has none; log {:?}", rec.log)));
        }
        let mut rejected_at = None;
        for (j, (rel, is_last, rejected)) in pushes.iter().enumerate() {
            let idx = common + j;
            if idx >= comps.len() || **rel != PathBuf::from(comps[..=idx].join("/")) || *is_last != (idx + 1 == comps.len()) || rejected_at.is_some() {
                return bad("push-sequence", at(&format!("unexpected push #{j} of {rel:?} (is_last={is_last}); log {:?}", rec.log)));
            }
            if *rejected {
                rejected_at = Some(idx);
            }
        }
        if !dir_rejected && rejected_at.is_none() && pushes.len() != comps.len() - common {
            return bad("push-sequence", at(&format!("{} pushes, expected {}; log {:?}", pushes.len(), comps.len() - common, rec.log)));
        }
        if res.is_ok() != (rejected_at.is_none() && !dir_rejected) {
            return bad("result", at(&format!("returned {res:?} but a push was rejected at component {rejected_at:?}")));
        }
        if rejected_at.is_some() || dir_rejected {
            rejections += 1;
        }
        if !dir_rejected {
            model.step(&comps, rejected_at);
        }
        if stack.current_relative() != model.rel() || stack.current() != root.join(model.rel()) {
            return bad(
                "current",
                at(&format!(
                    "current()={:?} current_relative()={:?}, expected root joined with {:?} (rejected component: {rejected_at:?})",
                    stack.current(),
                    stack.current_relative(),
                    model.rel()
                )),
            );
        }
        for ev in &rec.log {
            match ev {
                Ev::PushDir(p, false) => open.push(p.clone()),
                // a rejected push_directory leaves nothing open
                Ev::PushDir(_, true) => {}
                Ev::PopDir => {
                    if open.pop().is_none() {
                        return bad("pop-underflow", at(&format!("pop_directory without an open directory; log {:?}", rec.log)));
                    }
                }
                Ev::Push { .. } => {}
            }
        }
        if open != model.open_dirs() {
            return bad(
                "imbalance",
                at(&format!(
                    "directories pushed and not popped = {open:?}, but the current path {:?} (top is directory: {}) needs {:?}; delegate log of this call {:?}",
                    model.rel(),
                    model.top_is_dir,
                    model.open_dirs(),
                    rec.log
                )),
            );
        }
        states.push(vkit::hash_of(&(&model, rec.push_calls, &h.plan)));
    }
    note(states, h.paths.len() as u64);
    if rejections > 0 {
        rejected_total.fetch_add(1, Ordering::Relaxed);
        ok(format!("rejections-{}", rejections.min(3)))
    } else if h.plan == Plan::None {
        ok("no-failure-plan")
    } else {
        ok_trivial("plan-never-triggered")
    }
}

// ---------------------------------------------------------------------------------------------------------------------
// the same through gix_worktree::Stack in checkout mode: pushes are rejected by component validation (`.git`) and by a
// collision with an existing file (`f/..`); observed through the delegate statistics
#[derive(Serialize, Deserialize, Hash, Clone, Debug)]
struct WtHistory {
    paths: Vec<String>,
}

fn eval_wt(_run: &Run, h: &WtHistory, rejected_total: &AtomicU64) -> Verdict {
    let dir = vkit::scratch::Dir::new("c42wt");
    let root = dir.path().to_owned();
    if let Err(e) = std::fs::write(root.join("f"), b"file") {
        vkit::machinery!("cannot write fixture: {e}");
    }
    let attrs = gix_worktree::stack::state::Attributes::new(
        Default::default(),
        None,
        gix_worktree::stack::state::attributes::Source::WorktreeThenIdMapping,
        Default::default(),
    );
    let state = gix_worktree::stack::State::for_checkout(false, Default::default(), attrs);
    let mut stack = gix_worktree::Stack::new(root.clone(), state, gix_glob::pattern::Case::Sensitive, Vec::new(), Vec::new());
    let mut model = Model::new();
    let mut rejections = 0u32;
    let mut states = Vec::new();
    for (i, path) in h.paths.iter().enumerate() {
        let comps: Vec<&str> = path.split('/').collect();
        let common = model.common(&comps);
        // the existing file `f` was accepted as a leaf and is now used as a directory: the delegate refuses to announce it as one
        let transition_refused = common == 1 && model.cur.len() == 1 && model.cur[0] == "f" && !model.top_is_dir && comps.len() > 1;
        let expect_rejected = if transition_refused {
            Some(common)
        } else {
            (common..comps.len()).find(|&j| comps[j] == ".git" || (j == 0 && comps[0] == "f" && comps.len() > 1))
        };
        let at = |what: &str| format!("call #{} at_path({path:?}) after {:?}: {what}", i + 1, &h.paths[..i]);
        let res = stack.at_path(Path::new(path), None, &gix_object::find::Never).map(|p| p.path().to_owned());
        match (&res, expect_rejected) {
            (Ok(p), None) => {
                if *p != root.join(path) {
                    return bad("current", at(&format!("platform path is {p:?}")));
                }
            }
            (Err(_), Some(_)) => rejections += 1,
            (Ok(_), Some(j)) => return bad("result", at(&format!("succeeded although component #{j} must be rejected"))),
            (Err(e), None) => return bad("result", at(&format!("failed unexpectedly: {e}"))),
        }
        if !transition_refused {
            model.step(&comps, expect_rejected);
        }
        let st = stack.statistics().delegate;
        let open = st.push_directory as i64 - st.pop_directory as i64;
        if open != model.open_dirs().len() as i64 {
            return bad(
                "imbalance",
                at(&format!(
                    "push_directory={} pop_directory={} leaves {open} attribute levels, but the current path {:?} (top is directory: {}) has {} open directories",
                    st.push_directory,
                    st.pop_directory,
                    model.rel(),
                    model.top_is_dir,
                    model.open_dirs().len()
                )),
            );
        }
        states.push(vkit::hash_of(&(&model, "wt")));
    }
    note(states, h.paths.len() as u64);
    if rejections > 0 {
        rejected_total.fetch_add(1, Ordering::Relaxed);
        ok(format!("wt-rejections-{}", rejections.min(3)))
    } else {
        ok("wt-no-rejection")
    }
}

pub fn run(run: &'static Run) {
    run.rule(
        "fs-stack: histories = all sequences of <=2 (quick) / <=3 (thorough) relative paths over components {a,b,c} with depth <=3 (39 paths), all sequences of <=4 paths over components {a,b} depth <=3 (14 paths) \
         and all sequences of <=5 / <=6 paths over {a,b} depth <=2 (6 paths), each x failure plan {none, k-th push call rejected (k<=4 quick, k<=6 thorough), (thorough) every pair of push calls rejected, component `b` rejected as directory / as leaf / both, the 1st / 2nd / every push_directory() that announces the former leaf as directory rejected}; \
         thorough adds all sequences of 4 paths over {a,b,c} x {none, `b` rejected, 2nd push rejected} and all sequences of 5 paths over {a,b} depth <=3 x single-failure plans; \
         worktree-stack: all sequences of <=3 / <=4 paths over {a, b, .git (rejected by validation), f (existing file: rejected as directory)} depth <=2 through gix_worktree::Stack::at_path in checkout mode on a real directory; \
         after EVERY call: result, current()/current_relative(), the exact sequence of push() calls, and the set of directories pushed-but-not-popped are compared with the reference model; \
         non-trivial = at least one push was rejected in the history (or the plan is `none`)",
    );
    run.assume("paths are normalized, relative, non-empty and terminal as the documentation of make_relative_path_current demands; `push` is rejected, and `push_directory` only where it announces the former leaf of the previous path as directory (as gix-worktree's checkout delegate does); other push_directory calls never fail");
    run.assume("reference model: the valid components are the longest accepted prefix of the last path; a rejected push_directory leaves nothing open and the leaf stays a leaf; the top component counts as an open directory after a rejected push (the parent directory), after popping back to it, or when it was pushed as a non-last component");
    run.budget_secs(run.pick(35.0, 540.0));
    let quick = run.quick();
    let rejected_total = AtomicU64::new(0);

    let p3 = paths_over(&["a", "b", "c"], 3);
    let p2 = paths_over(&["a", "b"], 3);
    let p1 = paths_over(&["a", "b"], 2);
    run.sub(
        "fs-stack",
        |emit| {
            // (path alphabet, min len, max len, plans)
            let all = plans(6, true);
            let single = plans(6, false);
            let quick_plans = plans(4, false);
            let few = vec![Plan::None, Plan::NameB { dir: true, leaf: true }, Plan::Kth(2)];
            let mut configs: Vec<(&Vec<String>, usize, usize, &Vec<Plan>)> = Vec::new();
            if quick {
                configs.push((&p3, 1, 2, &quick_plans));
                configs.push((&p2, 1, 4, &quick_plans));
                configs.push((&p1, 1, 5, &quick_plans));
            } else {
                configs.push((&p1, 1, 6, &single));
                configs.push((&p3, 1, 3, &all));
                configs.push((&p3, 4, 4, &few));
                configs.push((&p2, 1, 4, &all));
                configs.push((&p2, 5, 5, &single));
            }
            let mut seen = std::collections::HashSet::new();
            for (paths, min_len, max_len, plans) in configs {
                enumerate::seqs(paths, min_len, max_len, |s| {
                    if seen.insert(vkit::hash_of(s)) {
                        for plan in plans.iter() {
                            emit(History { paths: s.to_vec(), plan: plan.clone() });
                        }
                    }
                });
            }
        },
        |h: &History| eval_fs(run, h, &rejected_total),
    );
    flush(run);
    run.require("some histories had rejected pushes", rejected_total.load(Ordering::Relaxed) > 0);

    let wt_rejected = AtomicU64::new(0);
    let pw = paths_over(&["a", "b", ".git", "f"], 2);
    run.sub_with(
        "worktree-stack",
        vkit::Opts::default().chunk(4096),
        |emit| {
            enumerate::seqs(&pw, 1, if quick { 3 } else { 4 }, |s| emit(WtHistory { paths: s.to_vec() }));
        },
        |h: &WtHistory| eval_wt(run, h, &wt_rejected),
    );
    flush(run);
    run.require("some worktree histories had rejected pushes", wt_rejected.load(Ordering::Relaxed) > 0);
}
